// Package c10: correspondence harness for property C10 (NDNLPv2 fragmentation and reassembly).
//
// A sending and a receiving REAL NDNLPLinkService are connected by the in-memory transport of the
// add-only hook file fw/face/verif_hooks_c10.go.
//
// ops:
//
//	new <mtu> <frag> <reasm> <ifi> <cm> <thr> <seq> <nthreads> <sscope> <rscope>
//	      <sscope>/<rscope>: scope of the sending / receiving face's transport, l = Local, n = NonLocal;
//	      <sscope> = i: the sending face runs on the REAL InternalTransport (management face), whose
//	      waiting frames are taken out only after sendPacket has returned;
//	      <mtu> is the MTU the harness CONFIGURES (the SPEC compares frames against this number);
//	      <nthreads> recording forwarding threads are registered (thread i records index i);
//	      sender: transport MTU, IsFragmentationEnabled, IsIncomingFaceIndicationEnabled,
//	      congestion marking on/off with threshold <thr>, nextSequence preset to <seq>;
//	      receiver: IsReassemblyEnabled = <reasm>                                   => ok
//	txb <id2> <id>     the SAME packet object (OutPkt / *defn.Pkt) of message <id> is sent on a second,
//	                   never congested face as well; its frames become message <id2>      => like tx
//	mtu <n>            LinkService.SetMTU(n) on the LIVE sending face (what management faces/update does) => ok
//	opt <frag> <ifi>   SetOptions on the live sending face (fragmentation, incoming-face indication)   => ok
//	tx <id> <pkthex> <tokhex|-> <itok> <mark|-> <inface|-> <cong> <hn> <hp>
//	      <hn> = fw.HashNameToFwThread(name), <hp> = ascending threads of
//	      fw.HashNameToAllPrefixFwThreads(name): hash facts of the dispatch rule, computed by the
//	      generator with the real functions for <nthreads> threads.
//	      sendPacket(OutPkt{Pkt{Raw, PitToken: itok?, CongestionMark: mark}, PitToken: tok,
//	      InFace}) with the send queue reported above (cong=1) / below the threshold
//	      => n=<k> <hex of every frame handed to transport.sendFrame>
//	rx <id> <i>  hand frame <i> of message <id> to the receiver's handleIncomingFrame
//	      => ps=<partial messages held> [d=<pkthex>/<tokhex|->/<mark|->@<threads>] [st=<fnv64>]  (packets queued
//	         to the forwarding threads; st = digest of ALL packets delivered so far in this history,
//	         which the harness retains without copying, rendered again now), "skip" when that frame
//	         does not exist
//	rxb <id>     the packet of message <id> arrives BARE (no LpPacket) => like rx
//	Every frame arrives in the receiving transport's reusable receive buffer, which the harness
//	overwrites as soon as handleIncomingFrame returns; renderings include the name the forwarder
//	works with (pkt.Name): d=<pkthex>/<tokhex|->/<mark|->/<namehex>@<threads>!<1|0>  (1 = the decoded
//	packet pkt.L3 lives in the memory of pkt.Raw).
//	end   => ps=<partial messages held> [h=<pkthex>/<tokhex|->/<mark|->]*  every retained packet,
//	         rendered again at the end of the history
package c10

import (
	"fmt"
	"io"
	"sync"
	"strconv"
	"strings"
	"testing"
	"time"
	"unsafe"

	defn "github.com/named-data/ndnd/fw/defn"
	"github.com/named-data/ndnd/fw/dispatch"
	"github.com/named-data/ndnd/fw/face"
	"github.com/named-data/ndnd/fw/fw"
	enc "github.com/named-data/ndnd/std/encoding"
	ndnlog "github.com/named-data/ndnd/std/log"
	spec "github.com/named-data/ndnd/std/ndn/spec_2022"
	"verif/harness/common"
)

// maxThreads bounds the number of forwarding threads a history may register (`new ... <nthreads>`).
const maxThreads = 8

// ---------------------------------------------------------------- recording forwarding threads

type recThread struct{ id int }

var delivered []string

// held keeps every packet queued to the forwarding threads during the current history WITHOUT copying
// it, exactly as a forwarding thread's queue does; the packets are rendered again later (after every
// further delivery and at the end of the history), so a delivered packet that does not own its
// bytes is noticed.
var held []*defn.Pkt

func render(p *defn.Pkt) string {
	mark := "-"
	if p.CongestionMark != nil {
		mark = strconv.FormatUint(*p.CongestionMark, 10)
	}
	// the name the forwarder works with (pkt.Name, set by dispatch from the decoded L3 packet)
	name := "-"
	if p.Name != nil {
		name = common.Hex(p.Name.Bytes())
	}
	return common.Hex(p.Raw) + "/" + common.Hex(p.PitToken) + "/" + mark + "/" + name
}

// aliasFlag: "1" when the decoded packet the forwarder works on (pkt.L3: it decrements the HopLimit
// and reads names through it) lives in the memory of pkt.Raw, the bytes that are sent on — so that
// edits through L3 reach the wire; "0" when the two are detached copies.
func aliasFlag(p *defn.Pkt) string {
	if p.L3 == nil || len(p.Raw) == 0 {
		return "1"
	}
	var name enc.Name
	if p.L3.Interest != nil {
		name = p.L3.Interest.NameV
	} else if p.L3.Data != nil {
		name = p.L3.Data.NameV
	}
	lo := uintptr(unsafe.Pointer(&p.Raw[0]))
	hi := lo + uintptr(len(p.Raw))
	for _, c := range name {
		if len(c.Val) == 0 {
			continue
		}
		a := uintptr(unsafe.Pointer(&c.Val[0]))
		if a < lo || a >= hi {
			return "0"
		}
	}
	return "1"
}

// one QueueInterest/QueueData call: which thread got which packet
type queued struct {
	thread int
	pkt    *defn.Pkt
}

var calls []queued

func record(thread int, p *defn.Pkt) {
	calls = append(calls, queued{thread, p})
}

// collect groups the calls of one arrival by packet (the same *defn.Pkt may be queued to several
// threads) in order of first appearance: "d=<pkt>/<tok>/<mark>@<threads in call order>"; every distinct
// packet is retained (once) in `held`.
func collect() {
	delivered = delivered[:0]
	var order []*defn.Pkt
	threads := map[*defn.Pkt][]string{}
	for _, c := range calls {
		if _, ok := threads[c.pkt]; !ok {
			order = append(order, c.pkt)
		}
		threads[c.pkt] = append(threads[c.pkt], strconv.Itoa(c.thread))
	}
	for _, p := range order {
		delivered = append(delivered, "d="+render(p)+"@"+strings.Join(threads[p], ",")+"!"+aliasFlag(p))
		held = append(held, p)
	}
	calls = calls[:0]
}

func fnvText(h uint64, s string) uint64 {
	for i := 0; i < len(s); i++ {
		h ^= uint64(s[i])
		h *= 0x100000001b3
	}
	return h
}

// heldDigest is the FNV-64 of the current renderings of all held packets (each followed by ';').
func heldDigest() string {
	h := uint64(0xcbf29ce484222325)
	for _, p := range held {
		h = fnvText(h, render(p))
		h = fnvText(h, ";")
	}
	return strconv.FormatUint(h, 16)
}
func (r *recThread) String() string            { return "rec" + strconv.Itoa(r.id) }
func (r *recThread) QueueData(p *defn.Pkt)     { record(r.id, p) }
func (r *recThread) QueueInterest(p *defn.Pkt) { record(r.id, p) }
func (r *recThread) GetNumPitEntries() int     { return 0 }
func (r *recThread) GetNumCsEntries() int      { return 0 }

// ---------------------------------------------------------------- state

type world struct {
	stx, rtx *face.VerifTransport
	snd, rcv *face.NDNLPLinkService
	itx      *face.InternalTransport // sender scope "i": the REAL internal transport carries the frames
	stxB     *face.VerifTransport    // a second sending face (never congested, never reconfigured)
	sndB     *face.NDNLPLinkService
	outs     map[string]dispatch.OutPkt // the packet OBJECTS handed to sendPacket, for `txb`
	thr      uint64
	frames   map[string][][]byte
	pkts     map[string][]byte
	rbuf     []byte // the receiving transport's REUSABLE receive buffer: every frame arrives in it
	ro       face.NDNLPLinkServiceOptions
	rscope   defn.Scope
	sc       *streamConn // `rxs`: the stream connection of this history (created on first use)
}

// streamConn is the byte stream of a stream face (TCP / Unix): the REAL readTlvStream loop runs on it in a
// goroutine and hands every block it frames to the receiving link service — out of its own receive buffer,
// as the stream transports do. feed appends bytes, lets the loop take them in reads of at most `chunk` bytes
// and returns when the loop is back in Read with nothing left to take.
type streamConn struct {
	mu      sync.Mutex
	cond    *sync.Cond
	pending []byte
	chunk   int
	waiting bool
	closed  bool
	tail    []byte // bytes of the separator held back so that no Read ends on a block boundary
	done    chan error
}

func (s *streamConn) Read(p []byte) (int, error) {
	s.mu.Lock()
	defer s.mu.Unlock()
	for len(s.pending) == 0 && !s.closed {
		s.waiting = true
		s.cond.Broadcast()
		s.cond.Wait()
	}
	if len(s.pending) == 0 {
		return 0, io.EOF
	}
	s.waiting = false
	n := len(s.pending)
	if n > s.chunk {
		n = s.chunk
	}
	n = copy(p, s.pending[:n])
	s.pending = s.pending[n:]
	return n, nil
}

func (s *streamConn) feed(b []byte, chunk int) bool {
	s.mu.Lock()
	defer s.mu.Unlock()
	s.pending = append(s.pending, b...)
	s.chunk = chunk
	s.cond.Broadcast()
	deadline := time.Now().Add(20 * time.Second)
	for !(s.waiting && len(s.pending) == 0) {
		select {
		case <-s.done:
			return false // the loop returned (an error): the stream face is down
		default:
		}
		if time.Now().After(deadline) {
			return false
		}
		s.mu.Unlock()
		time.Sleep(20 * time.Microsecond)
		s.mu.Lock()
	}
	return true
}

func (s *streamConn) close() {
	s.mu.Lock()
	s.closed = true
	s.cond.Broadcast()
	s.mu.Unlock()
	select {
	case <-s.done:
	case <-time.After(5 * time.Second):
	}
}

// arriveStream: the frame arrives over the history's stream connection, followed by the first byte of an idle
// LpPacket (64 00) whose second byte is held back until the next frame: every Read ends INSIDE a block, never
// on a block boundary, and the buffer of readTlvStream is never completely drained
func (w *world) arriveStream(frame []byte, chunk int) bool {
	if w.sc == nil {
		sc := &streamConn{done: make(chan error, 1)}
		sc.cond = sync.NewCond(&sc.mu)
		rcv := w.rcv
		go func() {
			sc.done <- face.VerifReadTlvStream(sc, func(b []byte) { face.VerifHandleIncomingFrame(rcv, b) }, nil)
		}()
		w.sc = sc
	}
	calls = calls[:0]
	data := append(append(append([]byte{}, w.sc.tail...), frame...), 0x64)
	w.sc.tail = []byte{0x00}
	ok := w.sc.feed(data, chunk)
	collect()
	return ok
}


// arriveInitial hands a frame to a NEW face as its initial frame, the way the UDP listener does for
// the first datagram of a new remote endpoint: LinkService.Run(recvBuf[:n]) - and the listener then
// goes straight back to reading into the same buffer.  The face's goroutines end on their own (the
// in-memory transport's receive loop returns at once), the face leaves the face table.
func (w *world) arriveInitial(frame []byte) {
	if len(w.rbuf) < len(frame) {
		w.rbuf = make([]byte, len(frame)+defn.MaxNDNPacketSize)
	}
	n := copy(w.rbuf, frame)
	calls = calls[:0]
	l := face.MakeNDNLPLinkService(face.VerifNewTransport(defn.MaxNDNPacketSize, w.rscope), w.ro)
	l.Run(w.rbuf[:n])
	for i := range w.rbuf {
		w.rbuf[i] = 0xAA
	}
	id := l.FaceID()
	for i := 0; i < 20000 && face.FaceTable.Get(id) != nil; i++ {
		time.Sleep(50 * time.Microsecond)
	}
	collect()
}

// arrive hands a frame to the receiving link service the way a transport does: in its reusable
// receive buffer, which is overwritten as soon as handleIncomingFrame returns (the next read).
func (w *world) arrive(frame []byte) {
	if len(w.rbuf) < len(frame) {
		w.rbuf = make([]byte, len(frame)+defn.MaxNDNPacketSize)
	}
	n := copy(w.rbuf, frame)
	calls = calls[:0]
	face.VerifHandleIncomingFrame(w.rcv, w.rbuf[:n])
	for i := range w.rbuf {
		w.rbuf[i] = 0xAA
	}
	collect()
}

func framesOut(fr [][]byte) string {
	var sb strings.Builder
	fmt.Fprintf(&sb, "n=%d", len(fr))
	for _, x := range fr {
		sb.WriteByte(' ')
		sb.WriteString(common.Hex(x))
	}
	return sb.String()
}

func rxOut() string {
	out := "ps=" + strconv.Itoa(face.VerifPartialMessages(w.rcv))
	for _, d := range delivered {
		out += " " + d
	}
	if len(delivered) > 0 {
		out += " st=" + heldDigest() // all packets delivered so far, as they look NOW
	}
	return out
}

var w *world
var initDone bool

// setup registers n recording forwarding threads (thread i records its own index).
func setup(n int) {
	if !initDone {
		initDone = true
		ndnlog.SetLevel(ndnlog.FatalLevel)
	}
	if n < 1 {
		n = 1
	}
	if n > maxThreads {
		n = maxThreads
	}
	ths := make([]dispatch.FWThread, n)
	for i := range ths {
		ths[i] = &recThread{i}
	}
	dispatch.InitializeFWThreads(ths)
	fw.Threads = make([]*fw.Thread, n)
}

// hashFacts: the forwarding thread of the name (Interests) and the ascending list of the threads of
// all its prefixes (token-less Data), computed with the REAL hash functions for n threads.  They are
// environment facts of the dispatch rule (the name hash is C01's business), carried on the tx line.
func hashFacts(wire []byte, n int) (int, string) {
	setup(n)
	l3, _, err := spec.ReadPacket(enc.NewBufferReader(append([]byte(nil), wire...)))
	if err != nil {
		return 0, "0"
	}
	var name enc.Name
	if l3.Interest != nil {
		name = l3.Interest.NameV
	} else if l3.Data != nil {
		name = l3.Data.NameV
	} else {
		return 0, "0"
	}
	var hp []string
	for i, m := range fw.HashNameToAllPrefixFwThreads(name) {
		if m {
			hp = append(hp, strconv.Itoa(i))
		}
	}
	return fw.HashNameToFwThread(name), strings.Join(hp, ",")
}

func b01(s string) bool { return s == "1" }

func optU64(s string) *uint64 {
	if s == "-" {
		return nil
	}
	v := common.Atou(s)
	return &v
}

func exec(op string) string {
	f := common.Fields(op)
	switch f[0] {
	case "new":
		if w != nil && w.sc != nil {
			w.sc.close()
		}
		w = nil
		held = nil
		calls = calls[:0]
		if len(f) != 11 {
			return "bad-op"
		}
		setup(common.Atoi(f[8]))
		scopeOf := func(x string) defn.Scope {
			if x == "l" {
				return defn.Local
			}
			return defn.NonLocal
		}
		nw := &world{frames: map[string][][]byte{}, pkts: map[string][]byte{}, outs: map[string]dispatch.OutPkt{}}
		nw.stx = face.VerifNewTransport(common.Atoi(f[1]), scopeOf(f[9]))
		nw.rtx = face.VerifNewTransport(defn.MaxNDNPacketSize, scopeOf(f[10]))
		so := face.MakeNDNLPLinkServiceOptions()
		so.IsFragmentationEnabled = b01(f[2])
		so.IsIncomingFaceIndicationEnabled = b01(f[4])
		so.DefaultCongestionThresholdBytes = common.Atou(f[6])
		so.BaseCongestionMarkingInterval = -time.Hour // the time condition of the marking rule always holds
		face.VerifSetCongestionMarking(b01(f[5]))
		nw.thr = so.DefaultCongestionThresholdBytes
		if f[9] == "i" { // the management face's transport: it KEEPS the frames until they are received
			nw.itx = face.VerifNewInternalTransport(common.Atoi(f[1]), 4096)
			nw.snd = face.MakeNDNLPLinkService(nw.itx, so)
		} else {
			nw.snd = face.MakeNDNLPLinkService(nw.stx, so)
		}
		nw.snd.SetFaceID(11)
		nw.stxB = face.VerifNewTransport(common.Atoi(f[1]), defn.NonLocal)
		nw.sndB = face.MakeNDNLPLinkService(nw.stxB, so)
		nw.sndB.SetFaceID(13)
		// both faces' frames go to one receiver: keep their sequence ranges apart
		face.VerifSetNextSequence(nw.sndB, common.Atou(f[7])+(1<<63))
		face.VerifSetNextSequence(nw.snd, common.Atou(f[7]))
		ro := face.MakeNDNLPLinkServiceOptions()
		ro.IsReassemblyEnabled = b01(f[3])
		nw.rcv = face.MakeNDNLPLinkService(nw.rtx, ro)
		nw.ro, nw.rscope = ro, scopeOf(f[10])
		nw.rcv.SetFaceID(12)
		w = nw
		return "ok"
	case "tx":
		if w == nil || len(f) != 10 {
			return "skip"
		}
		wire := common.UnHex(f[2])
		pkt := &defn.Pkt{Raw: wire}
		if l3, _, err := spec.ReadPacket(enc.NewBufferReader(wire)); err == nil && l3.LpPacket == nil {
			pkt.L3 = l3
		} else {
			pkt.L3 = &spec.Packet{}
		}
		if b01(f[4]) {
			pkt.PitToken = []byte{0, 1, 9, 9, 9, 9}
		}
		pkt.CongestionMark = optU64(f[5])
		out := dispatch.OutPkt{Pkt: pkt, InFace: optU64(f[6])}
		if f[3] != "-" {
			out.PitToken = common.UnHex(f[3])
		}
		if b01(f[7]) {
			w.stx.QueueSize = w.thr + 1
		} else {
			w.stx.QueueSize = 0
		}
		w.stx.Frames = nil
		face.VerifSendPacket(w.snd, out)
		fr := w.stx.Frames
		if w.itx != nil {
			// received late: only after sendPacket has handed over ALL frames of the packet
			fr = face.VerifInternalDrain(w.itx)
		}
		w.frames[f[1]] = fr
		w.pkts[f[1]] = append([]byte(nil), wire...)
		w.outs[f[1]] = out
		return framesOut(fr)
	case "txb": // the SAME packet object of message <id> is sent on the second face as well
		if w == nil || len(f) != 3 {
			return "skip"
		}
		out, ok := w.outs[f[2]]
		if !ok {
			return "skip"
		}
		w.stxB.QueueSize = 0
		w.stxB.Frames = nil
		face.VerifSendPacket(w.sndB, out)
		fr := w.stxB.Frames
		w.frames[f[1]] = fr
		w.pkts[f[1]] = append([]byte(nil), w.pkts[f[2]]...)
		w.outs[f[1]] = out
		return framesOut(fr)
	case "mtu": // management faces/update on a live face: LinkService.SetMTU
		if w == nil || len(f) != 2 {
			return "skip"
		}
		w.snd.SetMTU(common.Atoi(f[1]))
		return "ok"
	case "opt": // SetOptions on the live sending link service: fragmentation, incoming-face indication
		if w == nil || len(f) != 3 {
			return "skip"
		}
		o := w.snd.Options()
		o.IsFragmentationEnabled = b01(f[1])
		o.IsIncomingFaceIndicationEnabled = b01(f[2])
		w.snd.SetOptions(o)
		return "ok"
	case "rx":
		if w == nil || len(f) != 3 {
			return "skip"
		}
		fr, ok := w.frames[f[1]]
		i := common.Atoi(f[2])
		if !ok || i < 0 || i >= len(fr) {
			return "skip"
		}
		w.arrive(fr[i])
		return rxOut()
	case "rxs": // rxs <id> <i> <chunk>: frame <i> of message <id> arrives over the stream connection, in reads of <chunk> bytes
		if w == nil || len(f) != 4 {
			return "skip"
		}
		fr, ok := w.frames[f[1]]
		i := common.Atoi(f[2])
		if !ok || i < 0 || i >= len(fr) {
			return "skip"
		}
		if !w.arriveStream(fr[i], common.Atoi(f[3])) {
			return "stream-down " + rxOut()
		}
		return rxOut()
	case "rxb": // the packet of message <id> arrives BARE (no LpPacket around it)
		if w == nil || len(f) != 2 {
			return "skip"
		}
		pk, ok := w.pkts[f[1]]
		if !ok {
			return "skip"
		}
		w.arrive(pk)
		return rxOut()
	case "rxbi": // ... BARE, as the first datagram of a new peer: the initial frame of a new face
		if w == nil || len(f) != 2 {
			return "skip"
		}
		pk, ok := w.pkts[f[1]]
		if !ok {
			return "skip"
		}
		w.arriveInitial(pk)
		return rxOut()
	case "rxi": // the only frame of a one-frame message arrives as the initial frame of a new face
		if w == nil || len(f) != 2 {
			return "skip"
		}
		fr, ok := w.frames[f[1]]
		if !ok || len(fr) != 1 {
			return "skip"
		}
		w.arriveInitial(fr[0])
		return rxOut()
	case "end":
		if w == nil {
			return "skip"
		}
		if w.sc != nil {
			w.sc.close()
			w.sc = nil
		}
		out := "ps=" + strconv.Itoa(face.VerifPartialMessages(w.rcv))
		for _, p := range held {
			out += " h=" + render(p) // every delivered packet, as it looks at the end of the history
		}
		return out
	}
	return "bad-op"
}

// ---------------------------------------------------------------- packets of an exact size

func tl(t uint64, v []byte) []byte {
	tt, ll := enc.TLNum(t), enc.TLNum(len(v))
	b := make([]byte, tt.EncodingLength()+ll.EncodingLength()+len(v))
	p := tt.EncodeInto(b)
	p += ll.EncodeInto(b[p:])
	copy(b[p:], v)
	return b
}

// mkPacket builds a Data (kind 6) or Interest (kind 5) with c filler bytes.
func mkPacket(kind int, c int, r *common.Rand) []byte {
	fillv := r.Bytes(c)
	if kind == 6 {
		if c < 12 { // tiny: /<c+1 bytes>
			return tl(6, tl(7, tl(8, append([]byte{'x'}, fillv...))))
		}
		name := tl(7, append(tl(8, []byte("v")), tl(8, fillv[:4])...))
		return tl(6, append(name, tl(0x15, fillv[4:])...))
	}
	name := tl(7, append(tl(8, []byte("i")), tl(8, fillv)...))
	return tl(5, append(name, tl(0x0a, []byte{1, 2, 3, 4})...))
}

// sized returns a packet whose length is n, or the nearest achievable length below n.
func sized(kind int, n int, r *common.Rand) []byte {
	seed := r.U64()
	for c := n; c >= 0; c-- {
		p := mkPacket(kind, c, common.NewRand(seed))
		if len(p) <= n {
			return p
		}
	}
	return mkPacket(kind, 0, common.NewRand(seed))
}

// reform rewrites the OUTER type and length of a packet in a form that is not the shortest one (legal: every
// reader of the repository accepts it; a peer may send it): T in 1 or 3 bytes, L in 3, 5 or 9 bytes. The value is
// untouched. Returns the packet unchanged when the result would exceed the maximum packet size.
func reform(pkt []byte, r *common.Rand) []byte {
	if len(pkt) < 2 || pkt[0] > 0xfc {
		return pkt
	}
	hl := 2 // 1-byte T + 1-byte L
	switch pkt[1] {
	case 0xfd:
		hl = 4
	case 0xfe:
		hl = 6
	case 0xff:
		hl = 10
	}
	if hl > len(pkt) {
		return pkt
	}
	val := pkt[hl:]
	tform := func(x uint64, form int) []byte {
		switch form {
		case 1:
			return []byte{byte(x)}
		case 3:
			return []byte{0xfd, byte(x >> 8), byte(x)}
		case 5:
			return []byte{0xfe, byte(x >> 24), byte(x >> 16), byte(x >> 8), byte(x)}
		}
		return []byte{0xff, byte(x >> 56), byte(x >> 48), byte(x >> 40), byte(x >> 32), byte(x >> 24), byte(x >> 16), byte(x >> 8), byte(x)}
	}
	tf := common.Pick(r, []int{1, 1, 3})
	lf := common.Pick(r, []int{3, 5, 9})
	out := append(append(tform(uint64(pkt[0]), tf), tform(uint64(len(val)), lf)...), val...)
	if len(out) > defn.MaxNDNPacketSize {
		return pkt
	}
	return out
}

// ---------------------------------------------------------------- generator

var mtuBoundary = []int{128, 129, 130, 252, 253, 255, 256, 257, 258, 259, 260, 261, 300, 1280, 1452, 1500, 4000, 8799, 8800, 9000}
var markChoices = []uint64{0, 1, 2, 255, 256, 65535, 65536, 0xffffffff, 0x100000000, 0xffffffffffffffff}
var faceChoices = []uint64{0, 1, 255, 256, 300, 65535, 65536, 0xffffffff, 0x100000000, 0xffffffffffffffff}

func tlLen(n int) int { return enc.TLNum(n).EncodingLength() }

// genStreamLeg: ONE stream connection carrying several hundred fragmented packets (far more than the 281600-byte
// receive buffer of readTlvStream), every frame through the real framing loop in reads that never end on a block
// boundary, into the receiving link service — the long-lived TCP / Unix face of a loaded forwarder
func genStreamLeg(g *common.Gen, r *common.Rand) {
	mtu := common.Pick(r, []int{600, 1400, 1500})
	nth := common.Pick(r, []int{1, 4})
	g.Op("new %d 1 1 0 0 65536 %d %d n n", mtu, r.Intn(1000), nth)
	g.Stat("stream-leg")
	chunk := common.Pick(r, []int{1000, 1460, 4096, 700})
	total := 0
	for m := 0; total < 330000; m++ {
		kind := 5 + r.Intn(2)
		pkt := sized(kind, r.Range(mtu, 3*mtu), r)
		id := "s" + strconv.Itoa(m)
		hn, hp := hashFacts(pkt, nth)
		g.Op("tx %s %s - 0 - - 0 %d %s", id, common.Hex(pkt), hn, hp)
		k := len(pkt)/(mtu-60) + 2
		for i := 0; i < k; i++ {
			g.Op("rxs %s %d %d", id, i, chunk)
		}
		total += len(pkt) + 40*k
	}
	g.Op("end")
}

func gen(g *common.Gen) {
	// consecutive VERIF_SEEDs give splitmix streams shifted by one draw; spread them out
	root := common.NewRand((common.Seed() + 1) * 0xD1342543DE82EF95)
	for h := 0; h < g.N; h++ {
		r := root.Fork()
		if h%500 == 7 {
			genStreamLeg(g, r)
			continue
		}
		mtu := r.Range(128, 400)
		if r.Chance(1, 4) {
			mtu = common.Pick(r, mtuBoundary)
		}
		frag, reasm, ifi, cm := 1, 1, r.Intn(2), 0
		if r.Chance(1, 8) {
			frag = 0
			g.Stat("cfg-nofrag")
		}
		if r.Chance(1, 30) {
			reasm = 0
		}
		thr := uint64(65536)
		if r.Chance(1, 5) {
			cm = 1
			thr = uint64(common.Pick(r, []int{0, 100, 1000}))
			g.Stat("cfg-congestion-marking")
		}
		var seq uint64
		switch r.Intn(6) {
		case 0, 1:
			seq = 0
		case 2:
			seq = uint64(r.Intn(1000))
		case 3:
			seq = 0x100000000 - uint64(r.Intn(8))
			g.Stat("seq-near-2^32")
		case 4:
			seq = 0xffffffffffffffff - uint64(r.Intn(8)) + 1
			if seq == 0 {
				seq = 0xffffffffffffffff
			}
			g.Stat("seq-near-2^64")
		default:
			seq = r.U64()
		}
		nth := common.Pick(r, []int{1, 1, 2, 3, 4, 4, 8})
		sscope, rscope := common.Pick(r, []string{"n", "n", "l", "n", "l", "i"}), common.Pick(r, []string{"n", "n", "l"})
		g.Op("new %d %d %d %d %d %d %d %d %s %s", mtu, frag, reasm, ifi, cm, thr, seq, nth, sscope, rscope)
		g.Stat("scope-send-" + sscope)
		g.Stat("scope-recv-" + rscope)
		g.Stat("threads-" + strconv.Itoa(nth))
		g.Stat("mtu-" + mtuClass(mtu))

		mtu0 := mtu
		nmsg := r.Range(1, 3)
		type plan struct {
			id string
			k  int
		}
		var plans []plan
		for m := 0; m < nmsg; m++ {
			// reconfigure the LIVE face between sends: anything cached at construction is exposed
			prevMtu := mtu
			if m > 0 && r.Chance(1, 2) {
				switch r.Intn(4) {
				case 0:
					mtu = r.Range(128, 400)
				case 1: // a small step down / up
					mtu += r.Range(-40, 40)
				case 2:
					mtu = common.Pick(r, mtuBoundary)
				default: // halve or double
					if r.Chance(1, 2) {
						mtu /= 2
					} else {
						mtu *= 2
					}
				}
				if mtu < 128 {
					mtu = 128
				}
				if mtu > 9000 {
					mtu = 9000
				}
				g.Op("mtu %d", mtu)
				g.Stat("reconf-mtu")
			}
			if m > 0 && r.Chance(1, 5) {
				if r.Chance(1, 3) {
					frag = 1 - frag
				} else {
					ifi = 1 - ifi
				}
				g.Op("opt %d %d", frag, ifi)
				g.Stat("reconf-options")
			}
			// header fields
			tok := "-"
			tokLen := 0
			switch r.Intn(10) {
			case 0, 1, 2:
			case 3, 4, 5, 6:
				tokLen = 6
				b := r.Bytes(6)
				b[0], b[1] = 0, byte(r.Intn(nth))
				tok = common.Hex(b)
			default:
				tokLen = common.Pick(r, []int{1, 2, 4, 5, 7, 8, 16, 31, 32})
				tok = common.Hex(r.Bytes(tokLen))
			}
			mark, inface := "-", "-"
			over := 4 + 4 + 10 + 8
			if tokLen > 0 {
				over += 1 + tlLen(tokLen) + tokLen
			}
			if r.Chance(1, 2) {
				mark = strconv.FormatUint(common.Pick(r, markChoices), 10)
				over += 12
			}
			if r.Chance(2, 3) {
				inface = strconv.FormatUint(common.Pick(r, faceChoices), 10)
				if ifi == 1 {
					over += 12
				}
			}
			cong := 0
			if cm == 1 && sscope != "i" && r.Chance(1, 2) { // the internal transport reports an empty send queue
				cong = 1
			}
			e := mtu - over // payload bytes per fragment
			if e < 1 {
				e = 1
			}
			// packet size
			var size int
			switch r.Intn(10) {
			case 0, 1, 2, 3, 4: // fragment boundary k*e +- 2
				k := r.Range(1, 6)
				if r.Chance(1, 10) {
					k = r.Range(7, 24)
				}
				size = k*e + r.Range(-2, 2)
				g.Stat("size-frag-boundary")
			case 5, 6: // single-frame boundary: whole frame = mtu +- 3 (exact header, 1- or 3-byte lengths)
				size = mtu - (over - 18 - 4) + r.Range(-6, 3)
				g.Stat("size-single-boundary")
			case 7:
				size = common.Pick(r, []int{7, 8, 13, 100, 252, 253, 254, 257, 258, 8799, 8800})
				g.Stat("size-special")
			default:
				size = r.Range(7, 2500)
				g.Stat("size-random")
			}
			if prevMtu != mtu && r.Chance(1, 2) { // between the previous and the current MTU
				lo, hi := prevMtu, mtu
				if lo > hi {
					lo, hi = hi, lo
				}
				size = r.Range(lo-over, hi)
				g.Stat("size-between-old-and-new-mtu")
			}
			if size < 7 {
				size = 7
			}
			if size > defn.MaxNDNPacketSize {
				size = defn.MaxNDNPacketSize
			}
			kind := 5 + r.Intn(2)
			pkt := sized(kind, size, r)
			if r.Chance(1, 8) {
				pkt = reform(pkt, r)
				g.Stat("packet-outer-header-not-shortest")
			}
			id := "m" + strconv.Itoa(m)
			hn, hp := hashFacts(pkt, nth)
			g.Op("tx %s %s %s %d %s %s %d %d %s", id, common.Hex(pkt), tok, r.Intn(2), mark, inface, cong, hn, hp)
			if kind == 6 && tokLen != 6 && strings.Contains(hp, ",") {
				g.Stat("data-to-several-threads")
			}
			g.Stat("tx")
			if tok != "-" {
				g.Stat("tx-token")
			}
			if mark != "-" {
				g.Stat("tx-mark")
			}
			// upper bound of the number of frames (smallest conceivable payload per fragment)
			emin := mtu - over - 24
			if emin < 20 {
				emin = 20
			}
			k := len(pkt)/emin + 2
			plans = append(plans, plan{id, k})
			if r.Chance(1, 4) || (cong == 1 && r.Chance(1, 2)) {
				// the same packet object also goes out on a second, uncongested face
				eminB := mtu0 - over - 24
				if eminB < 20 {
					eminB = 20
				}
				idB := "b" + strconv.Itoa(m)
				g.Op("txb %s %s", idB, id)
				g.Stat("tx-second-face")
				plans = append(plans, plan{idB, len(pkt)/eminB + 2})
			}
			g.Stat("planned-frames-" + fragClass((len(pkt)+e-1)/e))
		}
		// arrival order at the receiver
		type ref struct {
			id string
			i  int
		}
		var order []ref
		style := r.Intn(5)
		switch style {
		case 0: // message after message, fragments in order
			for _, p := range plans {
				for i := 0; i < p.k; i++ {
					order = append(order, ref{p.id, i})
				}
			}
			g.Stat("order-sequential")
		case 1: // every message reversed, messages interleaved round-robin
			for i := 0; ; i++ {
				any := false
				for _, p := range plans {
					if i < p.k {
						order = append(order, ref{p.id, p.k - 1 - i})
						any = true
					}
				}
				if !any {
					break
				}
			}
			g.Stat("order-reversed-roundrobin")
		case 2: // per-message order kept, random interleaving
			idx := make([]int, len(plans))
			for {
				var cand []int
				for j, p := range plans {
					if idx[j] < p.k {
						cand = append(cand, j)
					}
				}
				if len(cand) == 0 {
					break
				}
				j := common.Pick(r, cand)
				order = append(order, ref{plans[j].id, idx[j]})
				idx[j]++
			}
			g.Stat("order-interleaved")
		default: // full random permutation of all frames of all messages
			for _, p := range plans {
				for i := 0; i < p.k; i++ {
					order = append(order, ref{p.id, i})
				}
			}
			for i := len(order) - 1; i > 0; i-- {
				j := r.Intn(i + 1)
				order[i], order[j] = order[j], order[i]
			}
			g.Stat("order-permutation")
		}
		bare := 0
		if r.Chance(1, 3) {
			bare = r.Range(1, 3) // consecutive bare packets through the same receive buffer
		}
		bareAt := r.Intn(len(order) + 1)
		for j, o := range order {
			if j == bareAt {
				for ; bare > 0; bare-- {
					g.Op("rxb %s", common.Pick(r, plans).id)
					g.Stat("rx-bare")
				}
			}
			g.Op("rx %s %d", o.id, o.i)
		}
		for ; bare > 0; bare-- {
			g.Op("rxb %s", common.Pick(r, plans).id)
			g.Stat("rx-bare")
		}
		// first datagram of a new UDP peer: the listener passes it to LinkService.Run as the initial
		// frame of a new face and re-uses its buffer at once
		if r.Chance(1, 3) {
			g.Op("rxbi %s", common.Pick(r, plans).id)
			g.Stat("rx-initial-bare")
		}
		if r.Chance(1, 3) {
			g.Op("rxi %s", common.Pick(r, plans).id)
			g.Stat("rx-initial-lp")
		}
		g.Op("end")
	}
}

func mtuClass(m int) string {
	switch {
	case m <= 400:
		return "128..400"
	case m <= 1500:
		return "401..1500"
	default:
		return ">1500"
	}
}

func fragClass(k int) string {
	switch {
	case k <= 1:
		return "1"
	case k <= 6:
		return "2..6"
	default:
		return ">6"
	}
}

func TestVerif(t *testing.T) { common.Main(t, gen, exec) }
