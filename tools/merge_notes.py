#!/usr/bin/env python3
"""Merge tools/seed_notes.json (needs / caught_by per seeded change) into seeded/<id>/meta.json.
Where no caught_by is given it is derived from the recorded verdict lines (check, tier, SPEC clause / key)."""
import glob, json, os, re
V = os.path.dirname(os.path.dirname(os.path.abspath(__file__)))
notes = json.load(open(os.path.join(V, "tools", "seed_notes.json")))
for m in sorted(glob.glob(os.path.join(V, "seeded", "C*", "meta.json"))):
    sid = os.path.basename(os.path.dirname(m))
    j = json.load(open(m))
    n = notes.get(sid, {})
    if n.get("needs"):
        j["needs"] = n["needs"]
    if n.get("caught_by"):
        j["caught_by"] = n["caught_by"]
    elif not j.get("caught_by"):
        parts = []
        for k, c in j.get("checks", {}).items():
            if c["verdict"] == "missed":
                continue
            cl = []
            for l in c.get("lines", []):
                mm = re.search(r"clause=(\S+) key=(\S*?):", l)
                if mm and (mm.group(1), mm.group(2)) not in cl:
                    cl.append((mm.group(1), mm.group(2)))
                mb = re.search(r"BROKEN ([\w-]+)", l)
                if mb and ("broken", mb.group(1)) not in cl:
                    cl.append(("broken", mb.group(1)))
            parts.append(f"{k}: " + (", ".join(f"SPEC {a}/{b}" if a != "broken" else f"{b} no longer checks" for a, b in cl[:3]) or c["verdict"]))
        j["caught_by"] = "; ".join(parts)
    json.dump(j, open(m, "w"), indent=1)
print("merged", len(notes), "notes")
