#!/bin/sh
# usage: tools/cover_eval.sh [outdir]   — which code of /repo do the correspondence harnesses execute?
# Builds every harness with -cover -coverpkg=github.com/named-data/ndnd/..., runs its quick volume plus
# its corpus against /repo, merges the profiles (union) and lists, per file anchored by a property, the
# functions executed by NO harness.  A diagnostic for the builder (glue code that a harness bypasses is
# where independently written breaking changes were missed); no check depends on it.
set -u
OUT=${1:-/root/scratch/cov}
mkdir -p "$OUT"
export GOFLAGS=-mod=mod GOPROXY=off GOSUMDB=off GOTOOLCHAIN=local
cd /verif/harness || exit 2
one() {
  id=$1; n=$2
  go1.26 test -c -cover -coverpkg=github.com/named-data/ndnd/... -tags verif -o "$OUT/$id.test" ./$id 2>&1 | grep -v "^warning" | head -5
  VERIF_MODE=gen VERIF_SEED=1 VERIF_N=$n VERIF_OUT="$OUT/$id.ops" VERIF_TIER=quick "$OUT/$id.test" -test.run '^TestVerif$' -test.timeout 0 > "$OUT/$id.gen.log" 2>&1
  up=$(echo $id | tr c C)
  cat /verif/corpus/$up/*.ops >> "$OUT/$id.ops" 2>/dev/null
  rm -rf "$OUT/$id.dir"; mkdir -p "$OUT/$id.dir"
  # GOCOVERDIR: some harnesses leave through os.Exit inside a synctest bubble (no -test.coverprofile then)
  GOCOVERDIR="$OUT/$id.dir" VERIF_MODE=exec VERIF_IN="$OUT/$id.ops" VERIF_OUT="$OUT/$id.trace" VERIF_TIER=quick \
    timeout 1200 "$OUT/$id.test" -test.run '^TestVerif$' -test.timeout 0 -test.coverprofile="$OUT/$id.prof" > "$OUT/$id.exec.log" 2>&1
  if [ -s "$OUT/$id.prof" ]; then cp "$OUT/$id.prof" "$OUT/$id.out"; else go1.26 tool covdata textfmt -i="$OUT/$id.dir" -o "$OUT/$id.out" 2>/dev/null; fi
  echo "$id blocks=$(wc -l < "$OUT/$id.out")"
  rm -f "$OUT/$id.test" "$OUT/$id.trace" "$OUT/$id.ops"
}
for f in /verif/props/C*.json; do
  id=$(basename $f .json | tr C c)
  n=$(python3 -c "import json;print(json.load(open('$f'))['harness']['quick_n'])")
  one $id $n &
  while [ $(jobs -r | wc -l) -ge 5 ]; do sleep 1; done
done
wait
python3 - "$OUT" <<'PY'
import glob, re, sys, json, collections, subprocess, os
out = sys.argv[1]
blocks = {}
for f in glob.glob(out + '/c*.out'):
    for ln in open(f):
        m = re.match(r'(.+) (\d+) (\d+)$', ln.strip())
        if m:
            o = blocks.get(m.group(1), (int(m.group(2)), 0))
            blocks[m.group(1)] = (o[0], max(o[1], int(m.group(3))))
with open(out + '/union.out', 'w') as w:
    w.write('mode: set\n')
    for k, (ns, c) in sorted(blocks.items()):
        w.write(f'{k} {ns} {1 if c > 0 else 0}\n')
fn = subprocess.run(['go1.26', 'tool', 'cover', '-func=' + out + '/union.out'], cwd='/verif/harness', capture_output=True, text=True).stdout
anch = collections.defaultdict(set)
for l in open('/verif/properties.jsonl'):
    p = json.loads(l)
    for f in p['anchors']['files']:
        anch[f].add(p['id'])
cur = None
for ln in fn.split('\n'):
    m = re.match(r'github.com/named-data/ndnd/(\S+?):(\d+):\s+(\S+)\s+([\d.]+)%', ln)
    if m and m.group(1) in anch and float(m.group(4)) == 0 and 'zz_generated' not in m.group(1):
        if m.group(1) != cur:
            cur = m.group(1); print(f"\n{cur} [{','.join(sorted(anch[cur]))}]")
        print(f"   {m.group(2):>5} {m.group(3)}")
print('\n' + fn.strip().split('\n')[-1])
PY
