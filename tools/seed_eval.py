#!/usr/bin/env python3
"""
Confirm an independently written breaking change and run the checks against it.

  tools/seed_eval.py <seed-id> <demo-dir-in-repo> <property> [<other property> ...] [--go go1.26] [--thorough]

<seed-id> names a directory /root/scratch/seed-out/<seed-id>/ holding patch.diff, the demonstration
(*_test.go, placed into <demo-dir-in-repo>) and README.md.  Everything happens in a scratch
worktree of /repo (never /repo itself), removed afterwards.  Confirms: the demonstration passes
without the change and fails with it; the repository builds and its whole existing test suite passes
with the change.  Then runs ./check <property> (quick; thorough too if --thorough or quick missed
it) with VERIF_REPO pointing at the worktree, and records everything in /verif/seeded/<seed-id>/.
"""
import json, os, re, shutil, subprocess, sys, time

V = os.path.dirname(os.path.dirname(os.path.abspath(__file__)))
args = [a for a in sys.argv[1:] if not a.startswith("--")]
flags = sys.argv[1:]
sid, demodir, props = args[0], args[1], args[2:]
go = "go"
if "--go" in flags:
    go = flags[flags.index("--go") + 1]; props = [p for p in props if p != go]
src = f"/root/scratch/seed-out/{sid}"
wt = f"/root/scratch/seedwt-{sid}-{os.getpid()}"
env = dict(os.environ, GOFLAGS="-mod=mod", GOPROXY="off", GOSUMDB="off", GOTOOLCHAIN="local")


def sh(cmd, cwd=None, e=None, timeout=3600):
    p = subprocess.run(cmd, cwd=cwd, env=e or env, shell=isinstance(cmd, str), stdout=subprocess.PIPE, stderr=subprocess.STDOUT, timeout=timeout)
    return p.returncode, p.stdout.decode("utf-8", "replace")


meta = {"seed": sid, "property": props[0], "also_run": props[1:], "ran": [], "confirmed": {}}
subprocess.run(["git", "-C", "/repo", "worktree", "add", "-q", "--detach", wt, "HEAD"], check=True)
try:
    demos = [f for f in os.listdir(src) if f.endswith("_test.go") or (f.endswith(".go") and f != "patch.diff")]
    tests = []
    for d in demos:
        tests += re.findall(r"^func (Test\w+)\(", open(os.path.join(src, d)).read(), re.M)
    runre = "^(" + "|".join(tests) + ")$" if tests else "."
    dd = os.path.join(wt, demodir)

    def put_demo():
        for d in demos: shutil.copy(os.path.join(src, d), dd)

    def del_demo():
        for d in demos:
            try: os.unlink(os.path.join(dd, d))
            except OSError: pass
    # 1. demonstration without the change
    put_demo()
    rc0, out0 = sh([go, "test", "-vet=off", "-count=1", "-run", runre, "./" + demodir], cwd=wt)
    meta["confirmed"]["demo_passes_without_change"] = rc0 == 0
    # 2. with the change
    rca, outa = sh(["git", "apply", os.path.join(src, "patch.diff")], cwd=wt)
    meta["confirmed"]["patch_applies"] = rca == 0
    rc1, out1 = sh([go, "test", "-vet=off", "-count=1", "-run", runre, "./" + demodir], cwd=wt)
    meta["confirmed"]["demo_fails_with_change"] = rc1 != 0
    del_demo()
    rcb, outb = sh("go build ./... && go test -vet=off -count=1 ./...", cwd=wt)
    meta["confirmed"]["builds_and_existing_tests_pass_with_change"] = rcb == 0
    meta["ran"] += [f"{go} test -run '{runre}' ./{demodir}  (without change: rc={rc0}; with change: rc={rc1})",
                    f"go build ./... && go test -vet=off -count=1 ./...  (with change: rc={rcb})"]
    if not (rc0 == 0 and rca == 0 and rc1 != 0 and rcb == 0):
        print("NOT CONFIRMED", meta["confirmed"]); print(out0[-800:] if rc0 else ""); print(outa); print(outb[-1500:] if rcb else "")
    # 3. the checks
    verdicts = {}
    for pid in props:
        for tier in (["quick", "thorough"] if "--thorough" in flags else ["quick"]):
            t0 = time.time()
            e2 = dict(env, VERIF_REPO=wt, VERIF_EVIDENCE_DIR=f"/root/scratch/seed-ev-{os.getpid()}", VERIF_NO_LEANCHECKER="1")
            rc, out = sh(["./check", pid, "--tier", tier], cwd=V, e=e2, timeout=7200)
            lines = [l[:400] for l in out.split("\n") if re.search(r"VIOLATION|KNOWN-FINDING|OK tier|BROKEN|spec violated", l)]
            v = "VIOLATION (no-failing-input-found)" if any("no-failing-input-found" in l for l in lines if "VIOLATION" in l) and not any("VIOLATION" in l and "no-failing" not in l for l in lines) \
                else "VIOLATION with replay" if any("VIOLATION" in l for l in lines) else "missed"
            verdicts[f"{pid}/{tier}"] = {"verdict": v, "rc": rc, "wall_s": round(time.time() - t0, 1), "lines": lines[:8]}
            meta["ran"].append(f"VERIF_REPO=<worktree with the change> ./check {pid} --tier {tier}  -> rc={rc}: {v}")
            print(f"{sid} {pid}/{tier}: {v}"); [print("   ", l[:300]) for l in lines[:5]]
            if v != "missed":
                break
        if verdicts.get(f"{pid}/quick", {}).get("verdict") == "missed" and "--thorough" not in flags and pid == props[0] \
                and not os.environ.get("SEED_NO_THOROUGH"):
            t0 = time.time()
            e2 = dict(env, VERIF_REPO=wt, VERIF_EVIDENCE_DIR=f"/root/scratch/seed-ev-{os.getpid()}", VERIF_NO_LEANCHECKER="1")
            rc, out = sh(["./check", pid, "--tier", "thorough"], cwd=V, e=e2, timeout=7200)
            lines = [l[:400] for l in out.split("\n") if re.search(r"VIOLATION|KNOWN-FINDING|OK tier|BROKEN|spec violated", l)]
            v = "VIOLATION (no-failing-input-found)" if any("no-failing-input-found" in l for l in lines if "VIOLATION" in l) and not any("VIOLATION" in l and "no-failing" not in l for l in lines) \
                else "VIOLATION with replay" if any("VIOLATION" in l for l in lines) else "missed"
            verdicts[f"{pid}/thorough"] = {"verdict": v, "rc": rc, "wall_s": round(time.time() - t0, 1), "lines": lines[:8]}
            meta["ran"].append(f"VERIF_REPO=<worktree with the change> ./check {pid} --tier thorough  -> rc={rc}: {v}")
            print(f"{sid} {pid}/thorough: {v}"); [print("   ", l[:300]) for l in lines[:5]]
    meta["checks"] = verdicts
    best = [k for k, x in verdicts.items() if x["verdict"] != "missed"]
    meta["verdict"] = "; ".join(f"{k}: {verdicts[k]['verdict']}" for k in best) if best else "MISSED by " + ", ".join(verdicts)
    # 4. record
    dst = os.path.join(V, "seeded", sid)
    os.makedirs(dst, exist_ok=True)
    for f in os.listdir(src):
        if os.path.isfile(os.path.join(src, f)):
            shutil.copy(os.path.join(src, f), dst)
    old = {}
    if os.path.exists(os.path.join(dst, "meta.json")):
        old = json.load(open(os.path.join(dst, "meta.json")))
    meta["demo_dir"] = demodir
    meta["needs"] = old.get("needs", "")
    meta["caught_by"] = old.get("caught_by", "")
    json.dump(meta, open(os.path.join(dst, "meta.json"), "w"), indent=1)
finally:
    subprocess.run(["git", "-C", "/repo", "worktree", "remove", "--force", wt])
    tag = __import__("hashlib").sha1(wt.encode()).hexdigest()[:8]
    for f in os.listdir(os.path.join(V, "harness", "bin")):
        if f.endswith(f"-{tag}.test"): os.unlink(os.path.join(V, "harness", "bin", f))
    for f in os.listdir(os.path.join(V, "harness")):
        if f.startswith(f".mod-{tag}") or f.startswith(f".build-{tag}"): os.unlink(os.path.join(V, "harness", f))
    shutil.rmtree(f"/root/scratch/seed-ev-{os.getpid()}", ignore_errors=True)
