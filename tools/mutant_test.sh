#!/bin/sh
# usage: tools/mutant_test.sh <patch.diff> <ID> [<ID>...]   — apply a patch to a scratch worktree of /repo
# (never /repo itself), run the given checks against it (quick tier), print their verdict lines, clean up.
set -u
PATCH=$(readlink -f "$1"); shift
WT=/root/scratch/mut-$$
git -C /repo worktree add -q --detach "$WT" HEAD || exit 2
if ! git -C "$WT" apply "$PATCH"; then echo "PATCH DOES NOT APPLY"; git -C /repo worktree remove --force "$WT"; exit 2; fi
export GOFLAGS=-mod=mod GOPROXY=off GOSUMDB=off GOTOOLCHAIN=local
( cd "$WT" && go build ./... ) || echo "MUTANT DOES NOT BUILD"
for id in "$@"; do
  echo "== $id on $(basename "$PATCH")"
  ( cd /verif && VERIF_REPO="$WT" VERIF_EVIDENCE_DIR=/root/scratch/mut-ev-$$ ./check "$id" --tier "${TIER:-quick}" 2>&1 | grep -E "VIOLATION|KNOWN-FINDING|OK tier|BROKEN|spec violated" | cut -c1-400 )
done
git -C /repo worktree remove --force "$WT"
rm -rf /root/scratch/mut-ev-$$ /verif/harness/bin/*-$(printf '%s' "$WT" | sha1sum | cut -c1-8).test /verif/harness/.mod-$(printf '%s' "$WT" | sha1sum | cut -c1-8).*
