#!/usr/bin/env python3
"""
Run the checks against an independently written BEHAVIOUR-PRESERVING change (false-alarm test).

  tools/refactor_eval.py <refactor-id> <property> [<other property> ...]

<refactor-id> names /root/scratch/refactor-out/<refactor-id>/ holding patch.diff and README.md.
Applies the patch in a scratch worktree of /repo (never /repo itself), confirms it builds (with and
without the verif tag) and passes the existing test suite, runs ./check <property> (quick tier) with
VERIF_REPO pointing at the worktree and records the verdict in /verif/seeded/harmless/<refactor-id>/.
Expected verdict: quiet (exit 0, no VIOLATION line).
"""
import hashlib, json, os, re, shutil, subprocess, sys, time

V = os.path.dirname(os.path.dirname(os.path.abspath(__file__)))
rid, props = sys.argv[1], sys.argv[2:]
src = f"/root/scratch/refactor-out/{rid}"
wt = f"/root/scratch/refwt-{rid}-{os.getpid()}"
env = dict(os.environ, GOFLAGS="-mod=mod", GOPROXY="off", GOSUMDB="off", GOTOOLCHAIN="local")


def sh(cmd, cwd=None, e=None, timeout=3600):
    p = subprocess.run(cmd, cwd=cwd, env=e or env, shell=isinstance(cmd, str), stdout=subprocess.PIPE, stderr=subprocess.STDOUT, timeout=timeout)
    return p.returncode, p.stdout.decode("utf-8", "replace")


meta = {"refactor": rid, "property": props[0], "also_run": props[1:], "ran": [], "confirmed": {}}
subprocess.run(["git", "-C", "/repo", "worktree", "add", "-q", "--detach", wt, "HEAD"], check=True)
try:
    rca, outa = sh(["git", "apply", os.path.join(src, "patch.diff")], cwd=wt)
    meta["confirmed"]["patch_applies"] = rca == 0
    rcb, outb = sh("go build ./... && go build -tags verif ./... && go test -vet=off -count=1 ./...", cwd=wt)
    meta["confirmed"]["builds_and_existing_tests_pass"] = rcb == 0
    if rca or rcb:
        print("NOT CONFIRMED", rid, outa[-300:], outb[-800:])
    verdicts = {}
    for pid in props:
        t0 = time.time()
        e2 = dict(env, VERIF_REPO=wt, VERIF_EVIDENCE_DIR=f"/root/scratch/ref-ev-{os.getpid()}")
        rc, out = sh(["./check", pid, "--tier", "quick"], cwd=V, e=e2, timeout=7200)
        lines = [l[:500] for l in out.split("\n") if re.search(r"VIOLATION|KNOWN-FINDING|OK tier|BROKEN|spec violated", l)]
        v = "quiet" if rc == 0 and not any("VIOLATION" in l for l in lines) else "ALARM"
        verdicts[pid] = {"verdict": v, "rc": rc, "wall_s": round(time.time() - t0, 1), "lines": lines[:6]}
        meta["ran"].append(f"VERIF_REPO=<worktree with the rewrite> ./check {pid} --tier quick -> rc={rc}: {v}")
        print(f"{rid} {pid}: {v}"); [print("   ", l[:400]) for l in lines[:4] if v == "ALARM"]
    meta["checks"] = verdicts
    meta["verdict"] = "quiet" if all(x["verdict"] == "quiet" for x in verdicts.values()) else "ALARM: " + ", ".join(k for k, x in verdicts.items() if x["verdict"] != "quiet")
    dst = os.path.join(V, "seeded", "harmless", rid)
    os.makedirs(dst, exist_ok=True)
    for f in ("patch.diff", "README.md"):
        if os.path.exists(os.path.join(src, f)):
            shutil.copy(os.path.join(src, f), dst)
    json.dump(meta, open(os.path.join(dst, "meta.json"), "w"), indent=1)
finally:
    subprocess.run(["git", "-C", "/repo", "worktree", "remove", "--force", wt])
    tag = hashlib.sha1(wt.encode()).hexdigest()[:8]
    for f in os.listdir(os.path.join(V, "harness", "bin")):
        if f.endswith(f"-{tag}.test"): os.unlink(os.path.join(V, "harness", "bin", f))
    for f in os.listdir(os.path.join(V, "harness")):
        if f.startswith(f".mod-{tag}") or f.startswith(f".build-{tag}"): os.unlink(os.path.join(V, "harness", f))
    shutil.rmtree(f"/root/scratch/ref-ev-{os.getpid()}", ignore_errors=True)
