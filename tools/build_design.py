#!/usr/bin/env python3
"""Assemble /verif/DESIGN.md from design/_head.md, design/C*.md, props/*.json, known_findings.json,
seeded/*/meta.json, design/_deviations.md and design/_tail.md."""
import glob, json, os, re

V = os.path.dirname(os.path.dirname(os.path.abspath(__file__)))
R = lambda p: open(os.path.join(V, p)).read()
props = {}
for f in sorted(glob.glob(os.path.join(V, "props", "C*.json"))):
    c = json.load(open(f)); props[c["id"]] = c
titles = {json.loads(l)["id"]: json.loads(l)["title"] for l in open(os.path.join(V, "properties.jsonl")) if l.strip()}

out = [R("design/_head.md").rstrip(), "", "-" * 87, "", "## 6. Per-property design, as built", "",
       "Each subsection is the design note of the property (`design/Cxx.md`): what is modelled and what is not,",
       "the specification, the theorems (full / partial), the tie to the source, the generator, the defects",
       "found, the false alarms repaired, and the self-tests.", ""]
for pid in sorted(titles):
    p = os.path.join(V, "design", pid + ".md")
    out.append(f"### §6.{pid} — {titles[pid]}")
    out.append("")
    if os.path.exists(p):
        body = open(p).read().strip().split("\n")
        if body and body[0].startswith("# "):
            body = body[1:]
        # demote headings so that they nest under the ### of this section
        body = [("##" + l) if re.match(r"^#{1,4} ", l) else l for l in body]
        out += body
    else:
        out.append("(no design note yet)")
    out += ["", ""]

kf = json.load(open(os.path.join(V, "known_findings.json")))
out += ["-" * 87, "", "## 7. Defects found on the pinned tree and their disposition", "",
        "All of these are violations of the *given* properties by the real code at the pinned commit, each",
        "reproduced by the property's check on the real code (replays in `corpus/Cxx/`) before it was repaired.",
        "A defect is repaired with one minimal unguarded `fix:` commit when the patch is what a maintainer",
        "would accept (corrects the behaviour, does not special-case the input; the 101 baseline tests,",
        "unedited, still pass); otherwise it is listed as a known finding. A fixed entry suppresses nothing.", "",
        "### Known findings (recorded, not repaired)", ""]
for k in kf.get("findings", []):
    out.append(f"* **{k['id']}** ({k['property']}, clause `{k.get('clause','')}`, key `{k.get('key_regex','')}`): {k['what']}")
if not kf.get("findings"):
    out.append("(none)")
out += ["", "### Repaired defects (`fix:` commits on /repo main, in order)", "", "| property | commit | what failed |", "|---|---|---|"]
for f in kf.get("fixed", []):
    m = re.match(r"fixed: property=(\S+) (\S+) (.*)", f)
    if m:
        out.append(f"| {m.group(1)} | `{m.group(2)}` | {m.group(3).replace('|', '/')} |")
out += ["", "-" * 87, "", "## 8. Summary", "",
        "| id | theorems (required) | tie | quick / thorough histories | claimed level | partiality |", "|---|---|---|---|---|---|"]
for pid in sorted(titles):
    c = props.get(pid)
    if not c:
        out.append(f"| {pid} | — | — | — | not claimed | — |"); continue
    L, H = c.get("lean", {}), c.get("harness", {})
    tie = "correspondence" + (" + regenerated facts" if c.get("gen") else "")
    part = "partial" if re.search(r"\bPARTIAL\b|partial", c.get("level", {}).get("text", "")) else "full over the model"
    out.append(f"| {pid} | {len(L.get('required_theorems', []))} | {tie}{' (-race)' if H.get('race') else ''} | "
               f"{H.get('quick_n', '?')} / {H.get('thorough_n', '?')} | {c.get('level', {}).get('category', '')} | {part} |")
out += ["", "**Not applicable: none.** Every property has a logic core an executable model can express; where part of the",
        "truth lives in the runtime the property stays claimed, labelled partial, with the runtime behaviour the model",
        "cannot exhibit named in its section and in `MANIFEST.json` (`level_note`).", ""]

out += ["-" * 87, "", "## 9. Seeded changes: which check catches which", "",
        "Each change below was written by a fresh sub-agent that saw only the text of the property and a scratch",
        "worktree (nothing from /verif), compiles, passes the 101 existing tests, and comes with a demonstration",
        "that fails with the change and passes without it; each was re-confirmed in a scratch worktree",
        "(`tools/mutant_test.sh`) and is kept as `seeded/<id>/` (patch.diff, demonstration, meta.json).", "",
        "| seeded change | property | needs | verdict of the check | how it is caught |", "|---|---|---|---|---|"]
metas = sorted(glob.glob(os.path.join(V, "seeded", "*", "meta.json")))
for m in metas:
    j = json.load(open(m))
    out.append(f"| `{os.path.basename(os.path.dirname(m))}` | {j.get('property')} | {j.get('needs','').replace('|','/')} | "
               f"{j.get('verdict','')} | {j.get('caught_by','').replace('|','/')} |")
if not metas:
    out.append("| (none recorded yet) | | | | |")
out.append("")
hm = sorted(glob.glob(os.path.join(V, "seeded", "harmless", "*", "meta.json")))
if hm:
    out += ["### Behaviour-preserving rewrites (false-alarm test)", "",
            "Independently written harmless rewrites of the anchored code (loop / condition restructuring, helper extraction,",
            "equivalent data structures, reordered independent statements, reworded log and error texts), three per property,",
            "each confirmed to build (with and without the `verif` tag) and to pass the existing tests, then run against the",
            "property's own check and the checks of the properties sharing the rewritten files (`tools/refactor_eval.py`,",
            "kept under `seeded/harmless/<id>/`). Expected and required verdict: quiet.", "",
            "| rewrite | checks run | verdict |", "|---|---|---|"]
    for m in hm:
        j = json.load(open(m))
        out.append(f"| `{j['refactor']}` | {', '.join(j.get('checks', {}).keys())} | {j.get('verdict','')} |")
    out.append("")
dv = os.path.join(V, "design", "_deviations.md")
if os.path.exists(dv):
    out += ["-" * 87, "", open(dv).read().rstrip(), ""]
out += ["-" * 87, "", R("design/_tail.md").rstrip(), ""]
open(os.path.join(V, "DESIGN.md"), "w").write("\n".join(out) + "\n")
print("DESIGN.md:", sum(len(l) + 1 for l in out), "bytes,", len(metas), "seeded changes")
