//go:build verif

package table

// Test-only read access for the /verif correspondence harness (properties C18/C19).

// VerifSelection returns the cached best / second-best next hops (name hashes) and costs.
func (e *RibEntry) VerifSelection() (nextHop1, lowest1, nextHop2, lowest2 uint64) {
	return e.nextHop1, e.lowest1, e.nextHop2, e.lowest2
}

// VerifFaceId returns the face currently recorded for this neighbor (0 = none).
func (ns *NeighborState) VerifFaceId() uint64 { return ns.faceId }
