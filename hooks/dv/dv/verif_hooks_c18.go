//go:build verif

package dv

import (
	"github.com/named-data/ndnd/dv/table"
	"github.com/named-data/ndnd/std/ndn"
)

// Test-only access for the /verif correspondence harness (property C18).
// A Router is built with the exported NewRouter around a harness ndn.Engine;
// these wrappers only expose unexported state and entry points, they add no behaviour.

// VerifRib returns the routing information base of this router.
func (dv *Router) VerifRib() *table.Rib { return dv.rib }

// VerifNeighbors returns the neighbor table of this router.
func (dv *Router) VerifNeighbors() *table.NeighborTable { return dv.neighbors }

// VerifRibUpdate runs the update rule for one neighbor state (as advertDataHandler does).
func (dv *Router) VerifRibUpdate(ns *table.NeighborState) { dv.ribUpdate(ns) }

// VerifCheckDeadNeighbors runs the dead-neighbor sweep (as the deadcheck ticker does).
func (dv *Router) VerifCheckDeadNeighbors() { dv.checkDeadNeighbors() }

// VerifAdvertSeq returns the advertisement sequence number of this router.
func (dv *Router) VerifAdvertSeq() uint64 {
	dv.mutex.Lock()
	defer dv.mutex.Unlock()
	return dv.advertSyncSeq
}

// VerifAdvertDataOnInterest delivers an Advertisement Data Interest (as the engine does for the
// advertisement data prefix): the router answers with its current advertisement.
func (dv *Router) VerifAdvertDataOnInterest(args ndn.InterestHandlerArgs) {
	dv.advertDataOnInterest(args)
}
