//go:build verif

package dv

import (
	"github.com/named-data/ndnd/dv/nfdc"
	"github.com/named-data/ndnd/dv/table"
	enc "github.com/named-data/ndnd/std/encoding"
	"github.com/named-data/ndnd/std/ndn"
	ndn_sync "github.com/named-data/ndnd/std/sync"
)

// Test-only access for the /verif correspondence harness (property C19).

// VerifFib returns the table of routes installed in the forwarder.
func (dv *Router) VerifFib() *table.Fib { return dv.fib }

// VerifPfx returns the global prefix table.
func (dv *Router) VerifPfx() *table.PrefixTable { return dv.pfx }

// VerifNfdc returns the management thread (its Start loop drains the command queue).
func (dv *Router) VerifNfdc() *nfdc.NfdMgmtThread { return dv.nfdc }

// VerifFibUpdate recomputes the installed routes.
func (dv *Router) VerifFibUpdate() { dv.fibUpdate() }

// VerifOnPfxSyncUpdate delivers a prefix sync update (as the SVS group does).
func (dv *Router) VerifOnPfxSyncUpdate(nodeId enc.Name, high uint64) {
	dv.onPfxSyncUpdate(ndn_sync.SvSyncUpdate{NodeId: nodeId, High: high})
}

// VerifPrefixDataFetch runs one fetch decision for the prefix data of a router.
func (dv *Router) VerifPrefixDataFetch(nodeId enc.Name) { dv.prefixDataFetch(nodeId) }

// VerifAdvertSyncOnInterest delivers an Advertisement Sync Interest (as the engine does for the
// active / passive sync prefixes).
func (dv *Router) VerifAdvertSyncOnInterest(args ndn.InterestHandlerArgs, active bool) {
	dv.advertSyncOnInterest(args, active)
}

// VerifProcessPrefixData processes a fetched prefix Data packet (as the Express callback of
// prefixDataFetch does).
func (dv *Router) VerifProcessPrefixData(data ndn.Data, router *table.PrefixTableRouter) {
	dv.processPrefixData(data, router)
}

// VerifPfxSvs returns the prefix-table sync group instance (Router.Start starts it; the harness starts
// and feeds it itself so that sync updates reach onPfxSyncUpdate through the real SvSync).
func (dv *Router) VerifPfxSvs() *ndn_sync.SvSync { return dv.pfxSvs }

// VerifReadvertiseOnInterest delivers a readvertise command Interest (/localhost/nlsr/rib/...; as
// the engine does for the readvertise prefix): the router announces / withdraws the prefix it names.
func (dv *Router) VerifReadvertiseOnInterest(args ndn.InterestHandlerArgs) {
	dv.readvertiseOnInterest(args)
}
