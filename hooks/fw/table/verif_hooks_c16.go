//go:build verif

package table

// VerifSetReadvertisers replaces the list of readvertisers the RIB calls back (C16 harness: a fresh
// real NLSR readvertiser per history).
func VerifSetReadvertisers(rs ...RibReadvertise) {
	readvertisers = append(make([]RibReadvertise, 0, len(rs)), rs...)
}
