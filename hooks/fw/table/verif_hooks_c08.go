//go:build verif

// Test-only white-box dumps for the /verif check C08 (forwarder state is reclaimed): PIT-CS name
// tree, PIT entries with their expiry-queue position, LRU bookkeeping, dead nonce list, and the
// node sets of the name-tree FIB, the hash-table FIB and the RIB.
// Add-only and read-only: nothing here is compiled without the build tag `verif`, nothing here
// changes table state (except VerifC08ResetRib, which replaces the process-global RIB by an empty one).

package table

import (
	"sort"

	enc "github.com/named-data/ndnd/std/encoding"
)

type VerifC08Record struct {
	Face       uint64
	Nonce      uint32
	Timestamp  int64 // UnixNano (out-records), 0 for in-records
	Expiration int64 // UnixNano
	Name       enc.Name
}

type VerifC08PitEntry struct {
	Name        enc.Name // path of the node the entry hangs on
	EncName     enc.Name
	CanBePrefix bool
	MustBeFresh bool
	HasHint     bool
	Token       uint32
	In, Out     []VerifC08Record // sorted by face
	Queued      bool             // pqItem != nil and still in the heap
	Priority    int64            // queue priority (UnixNano) when Queued
	Expiration  int64            // expirationTime (UnixNano)
	Satisfied   bool
}

type VerifC08PitCsDump struct {
	Nodes        []enc.Name // every non-root node reachable from the root
	Pit          []VerifC08PitEntry
	CsNames      []enc.Name // nodes with a CS entry
	CsMapNames   []enc.Name // node paths of the csMap values
	LruOrder     []enc.Name // LRU queue front to back (node paths; nil path if not in csMap)
	LruLocations int
	NPit, NCs    int
	TokenMapLen  int
	QueueLen     int
}

func verifC08Path(n *pitCsTreeNode) enc.Name {
	var rev []enc.Component
	for ; n != nil && n.parent != nil; n = n.parent {
		rev = append(rev, *n.component)
	}
	out := make(enc.Name, 0, len(rev))
	for i := len(rev) - 1; i >= 0; i-- {
		out = append(out, rev[i])
	}
	return out
}

// VerifC08DumpPitCs walks the tree from the root through the children maps.
func VerifC08DumpPitCs(t PitCsTable) VerifC08PitCsDump {
	p := t.(*PitCsTree)
	d := VerifC08PitCsDump{NPit: p.nPitEntries, NCs: p.nCsEntries, TokenMapLen: len(p.pitTokenMap),
		QueueLen: p.pitExpiryQueue.Len()}
	var walk func(n *pitCsTreeNode, path enc.Name)
	walk = func(n *pitCsTreeNode, path enc.Name) {
		if n.parent != nil {
			d.Nodes = append(d.Nodes, path)
		}
		if n.csEntry != nil {
			d.CsNames = append(d.CsNames, path)
		}
		for _, e := range n.pitEntries {
			pe := VerifC08PitEntry{Name: path, EncName: e.encname, CanBePrefix: e.canBePrefix, MustBeFresh: e.mustBeFresh,
				HasHint: e.forwardingHintNew != nil, Token: e.token, Expiration: e.expirationTime.UnixNano(),
				Satisfied: e.satisfied}
			for _, r := range e.inRecords {
				pe.In = append(pe.In, VerifC08Record{Face: r.Face, Nonce: r.LatestNonce, Expiration: r.ExpirationTime.UnixNano(), Name: r.LatestInterest})
			}
			for _, r := range e.outRecords {
				pe.Out = append(pe.Out, VerifC08Record{Face: r.Face, Nonce: r.LatestNonce, Timestamp: r.LatestTimestamp.UnixNano(),
					Expiration: r.ExpirationTime.UnixNano(), Name: r.LatestInterest})
			}
			sort.Slice(pe.In, func(i, j int) bool { return pe.In[i].Face < pe.In[j].Face })
			sort.Slice(pe.Out, func(i, j int) bool { return pe.Out[i].Face < pe.Out[j].Face })
			if e.pqItem != nil && e.pqItem.VerifC08Index() >= 0 {
				pe.Queued = true
				pe.Priority = e.pqItem.VerifC08Priority()
			}
			d.Pit = append(d.Pit, pe)
		}
		for _, c := range n.children {
			walk(c, append(path.Clone(), *c.component))
		}
	}
	walk(p.root, enc.Name{})
	for _, e := range p.csMap {
		d.CsMapNames = append(d.CsMapNames, verifC08Path(e.node))
	}
	if lru, ok := p.csReplacement.(*CsLRU); ok {
		d.LruLocations = len(lru.locations)
		for el := lru.queue.Front(); el != nil; el = el.Next() {
			if e, ok := p.csMap[el.Value.(uint64)]; ok {
				d.LruOrder = append(d.LruOrder, verifC08Path(e.node))
			} else {
				d.LruOrder = append(d.LruOrder, nil)
			}
		}
	}
	return d
}

// VerifC08Dump returns the keys of the dead nonce list (sorted) and the length of its expiry queue.
func (d *DeadNonceList) VerifC08Dump() (keys []uint64, queueLen int) {
	for k := range d.list {
		keys = append(keys, k)
	}
	sort.Slice(keys, func(i, j int) bool { return keys[i] < keys[j] })
	return keys, d.expirationQueue.Len()
}

// ---------------------------------------------------------------- FIB (name tree)

type VerifC08FibNode struct {
	Path        enc.Name
	NumNextHops int
	HasStrategy bool
}

// VerifC08FibTreeNodes returns every node reachable from the root (root included, Path empty) and
// the size of the fibPrefixes side table.
func VerifC08FibTreeNodes() (nodes []VerifC08FibNode, numPrefixes int) {
	f := FibStrategyTable.(*FibStrategyTree)
	f.fibStrategyRWMutex.RLock()
	defer f.fibStrategyRWMutex.RUnlock()
	var walk func(n *fibStrategyTreeEntry, path enc.Name)
	walk = func(n *fibStrategyTreeEntry, path enc.Name) {
		nodes = append(nodes, VerifC08FibNode{Path: path, NumNextHops: len(n.nexthops), HasStrategy: n.strategy != nil})
		for _, c := range n.children {
			walk(c, append(path.Clone(), c.component))
		}
	}
	walk(f.root, enc.Name{})
	return nodes, len(f.fibPrefixes)
}

// ---------------------------------------------------------------- FIB (hash table)

type VerifC08HashVirt struct {
	Hash       uint64
	InVirt     bool // key present in virtTable
	Md         int
	InNames    bool     // key present in virtTableNames
	NameBytes  []string // members of the virtTableNames set (sorted)
	NameLens   []int
}

// VerifC08FibHashDump returns the real table (as VerifC08FibNode, Path = entry name) and the
// union of the keys of virtTable and virtTableNames.
func VerifC08FibHashDump() (m int, real []VerifC08FibNode, virt []VerifC08HashVirt) {
	f := FibStrategyTable.(*FibStrategyHashTable)
	f.fibStrategyRWMutex.RLock()
	defer f.fibStrategyRWMutex.RUnlock()
	for _, e := range f.realTable {
		real = append(real, VerifC08FibNode{Path: e.name, NumNextHops: len(e.nexthops), HasStrategy: e.strategy != nil})
	}
	keys := map[uint64]bool{}
	for k := range f.virtTable {
		keys[k] = true
	}
	for k := range f.virtTableNames {
		keys[k] = true
	}
	for k := range keys {
		v := VerifC08HashVirt{Hash: k}
		if e, ok := f.virtTable[k]; ok {
			v.InVirt, v.Md = true, e.md
		}
		if s, ok := f.virtTableNames[k]; ok {
			v.InNames = true
			for nb := range s {
				v.NameBytes = append(v.NameBytes, nb)
			}
			sort.Strings(v.NameBytes)
			for _, nb := range v.NameBytes {
				v.NameLens = append(v.NameLens, s[nb])
			}
		}
		virt = append(virt, v)
	}
	sort.Slice(virt, func(i, j int) bool { return virt[i].Hash < virt[j].Hash })
	return f.m, real, virt
}

// ---------------------------------------------------------------- RIB

// VerifC08ResetRib replaces the process-global RIB by an empty one (initial value of `Rib`).
func VerifC08ResetRib() {
	Rib = RibTable{RibEntry: RibEntry{children: map[*RibEntry]bool{}}}
}

type VerifC08RibNode struct {
	Path      enc.Name
	NumRoutes int
	HasName   bool
}

// VerifC08RibNodes returns every RIB node reachable from the root (root included).
func VerifC08RibNodes() (nodes []VerifC08RibNode) {
	var walk func(n *RibEntry, path enc.Name)
	walk = func(n *RibEntry, path enc.Name) {
		nodes = append(nodes, VerifC08RibNode{Path: path, NumRoutes: len(n.routes), HasName: n.Name != nil})
		for c := range n.children {
			walk(c, append(path.Clone(), c.component))
		}
	}
	walk(&Rib.RibEntry, enc.Name{})
	return nodes
}
