//go:build verif

// Test-only access for the /verif checks C05, C06 (and the white-box dumps used by C08).
// Add-only: nothing here is compiled without the build tag `verif`.

package table

import (
	enc "github.com/named-data/ndnd/std/encoding"
)

// VerifNewFibTree returns a fresh, independent name-tree FIB built by the production
// constructor (the process global FibStrategyTable is left as it was).
func VerifNewFibTree() *FibStrategyTree {
	old := FibStrategyTable
	defer func() { FibStrategyTable = old }()
	newFibStrategyTableTree()
	return FibStrategyTable.(*FibStrategyTree)
}

// VerifNewFibHashTable returns a fresh, independent hash-table FIB with virtual depth m, built by
// the production constructor (the process global FibStrategyTable is left as it was).
func VerifNewFibHashTable(m uint16) *FibStrategyHashTable {
	old := FibStrategyTable
	defer func() { FibStrategyTable = old }()
	newFibStrategyTableHashTable(m)
	return FibStrategyTable.(*FibStrategyHashTable)
}

// VerifNewRib returns a fresh, empty RIB (same shape as the initial value of the global Rib).
// RIB operations write to the process global FibStrategyTable, which the caller sets.
func VerifNewRib() *RibTable {
	return &RibTable{RibEntry: RibEntry{children: map[*RibEntry]bool{}}}
}

// VerifFibTreeNode is one node of the name-tree FIB. Path is the list of components from the
// root (independent of the node's `name` field, which is nil for filler nodes).
type VerifFibTreeNode struct {
	Path        enc.Name
	HasName     bool
	Name        enc.Name
	NextHops    []FibNextHopEntry
	Strategy    enc.Name // nil if unset
	NumChildren int
}

// VerifDumpNodes walks the whole tree (every node reachable from the root through `children`).
func (f *FibStrategyTree) VerifDumpNodes() []VerifFibTreeNode {
	f.fibStrategyRWMutex.RLock()
	defer f.fibStrategyRWMutex.RUnlock()
	var out []VerifFibTreeNode
	var walk func(n *fibStrategyTreeEntry, path enc.Name)
	walk = func(n *fibStrategyTreeEntry, path enc.Name) {
		d := VerifFibTreeNode{Path: path.Clone(), HasName: n.name != nil, Name: n.name, Strategy: n.strategy,
			NumChildren: len(n.children)}
		for _, nh := range n.nexthops {
			d.NextHops = append(d.NextHops, *nh)
		}
		out = append(out, d)
		for _, c := range n.children {
			walk(c, append(path.Clone(), c.component))
		}
	}
	walk(f.root, enc.Name{})
	return out
}

// VerifNumFibPrefixes returns the size of the tree FIB's fibPrefixes side table.
func (f *FibStrategyTree) VerifNumFibPrefixes() int {
	f.fibStrategyRWMutex.RLock()
	defer f.fibStrategyRWMutex.RUnlock()
	return len(f.fibPrefixes)
}

// VerifHashReal is one entry of the hash-table FIB's real table.
type VerifHashReal struct {
	Hash     uint64
	Name     enc.Name
	NextHops []FibNextHopEntry
	Strategy enc.Name // nil if unset
}

// VerifHashVirt is one virtual entry: key (hash of the m-component virtual name), its md, whether
// the key is present in virtTable / virtTableNames, and the real names (TLV bytes -> length)
// recorded for it.
type VerifHashVirt struct {
	Hash       uint64
	InVirt     bool
	Md         int
	InNames    bool
	NamesBytes map[string]int
}

// VerifDump returns m and copies of the real and virtual tables.
func (f *FibStrategyHashTable) VerifDump() (m int, real []VerifHashReal, virt []VerifHashVirt) {
	f.fibStrategyRWMutex.RLock()
	defer f.fibStrategyRWMutex.RUnlock()
	for h, e := range f.realTable {
		d := VerifHashReal{Hash: h, Name: e.name, Strategy: e.strategy}
		for _, nh := range e.nexthops {
			d.NextHops = append(d.NextHops, *nh)
		}
		real = append(real, d)
	}
	keys := map[uint64]bool{}
	for h := range f.virtTable {
		keys[h] = true
	}
	for h := range f.virtTableNames {
		keys[h] = true
	}
	for h := range keys {
		d := VerifHashVirt{Hash: h}
		if v, ok := f.virtTable[h]; ok {
			d.InVirt, d.Md = true, v.md
		}
		if ns, ok := f.virtTableNames[h]; ok {
			d.InNames = true
			d.NamesBytes = make(map[string]int, len(ns))
			for k, l := range ns {
				d.NamesBytes[k] = l
			}
		}
		virt = append(virt, d)
	}
	return f.m, real, virt
}

// VerifRibNode is one node of the RIB tree. Path is the list of components from the root.
type VerifRibNode struct {
	Path        enc.Name
	HasName     bool
	Name        enc.Name
	Routes      []Route
	NumChildren int
}

// VerifDumpNodes walks the whole RIB tree (every node reachable from the root).
func (r *RibTable) VerifDumpNodes() []VerifRibNode {
	var out []VerifRibNode
	var walk func(n *RibEntry, path enc.Name)
	walk = func(n *RibEntry, path enc.Name) {
		d := VerifRibNode{Path: path.Clone(), HasName: n.Name != nil, Name: n.Name, NumChildren: len(n.children)}
		for _, rt := range n.routes {
			d.Routes = append(d.Routes, *rt)
		}
		out = append(out, d)
		for c := range n.children {
			walk(c, append(path.Clone(), c.component))
		}
	}
	walk(&r.RibEntry, enc.Name{})
	return out
}

// VerifResetGlobalRib empties the process-global Rib in place and returns a pointer to it, so
// that a check can drive the very table used by fw/mgmt and fw/face (face.Table.Remove calls
// Rib.CleanUpFace on the global).
func VerifResetGlobalRib() *RibTable {
	Rib = RibTable{RibEntry: RibEntry{children: map[*RibEntry]bool{}}}
	return &Rib
}
