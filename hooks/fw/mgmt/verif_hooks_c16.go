//go:build verif

package mgmt

import (
	"github.com/named-data/ndnd/fw/face"
	basic_engine "github.com/named-data/ndnd/std/engine/basic"
)

// VerifC16NewReadvertiser returns the real NLSR readvertiser on a management thread whose internal
// transport is not attached to a forwarder: the commands it sends pile up in the transport's send
// queue, from where the harness takes them (face.VerifC16TakeSent).
func VerifC16NewReadvertiser() (*NlsrReadvertiser, *face.InternalTransport) {
	m := new(Thread)
	m.timer = basic_engine.NewTimer()
	m.transport = face.MakeInternalTransport()
	return NewNlsrReadvertiser(m), m.transport
}

// VerifC16Advertised returns a copy of the readvertiser's advertised counts (name hash -> count).
func VerifC16Advertised(r *NlsrReadvertiser) map[uint64]int {
	r.mutex.Lock()
	defer r.mutex.Unlock()
	out := make(map[uint64]int, len(r.advertised))
	for k, v := range r.advertised {
		out[k] = v
	}
	return out
}
