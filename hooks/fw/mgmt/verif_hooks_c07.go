//go:build verif

// Test-only entry point for the /verif check C07 (CS capacity lowered through management).
// Add-only: nothing here is compiled without the build tag `verif`.

package mgmt

import (
	"github.com/named-data/ndnd/fw/face"
	spec "github.com/named-data/ndnd/std/ndn/spec_2022"
)

// VerifC07NewMgmt returns a management thread built by the production constructor whose internal
// transport is not attached to a forwarder: responses pile up in the transport's send queue.
func VerifC07NewMgmt() (*Thread, *face.InternalTransport) {
	m := MakeMgmtThread()
	m.transport = face.MakeInternalTransport()
	return m, m.transport
}

// VerifC07Dispatch hands a management Interest to the module named by its name, exactly as the
// dispatch at the end of Thread.Run does. It reports whether such a module exists.
func (m *Thread) VerifC07Dispatch(interest *spec.Interest, inFace uint64) bool {
	if len(interest.NameV) < len(m.localPrefix)+2 {
		return false
	}
	module, ok := m.modules[interest.NameV[len(m.localPrefix)].String()]
	if !ok {
		return false
	}
	module.handleIncomingInterest(interest, nil, inFace)
	return true
}
