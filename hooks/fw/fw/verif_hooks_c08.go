//go:build verif

// Test-only access for the /verif check C08 (forwarder state is reclaimed).
// Add-only: nothing here is compiled without the build tag `verif`.

package fw

import "github.com/named-data/ndnd/fw/table"

// VerifC08PitCs returns the thread's PIT-CS table.
func (t *Thread) VerifC08PitCs() table.PitCsTable { return t.pitCS }

// VerifC08DeadNonceList returns the thread's dead nonce list.
func (t *Thread) VerifC08DeadNonceList() *table.DeadNonceList { return t.deadNonceList }
