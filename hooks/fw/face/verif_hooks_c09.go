//go:build verif

package face

import "net/http"

// VerifWebSocketHandler returns the HTTP handler that WebSocketListener.Run installs on its server
// (upgrade, transport construction, link service start), so that the C09 harness can serve it on a
// listener of its own and observe the scope the accepted face gets.
func VerifWebSocketHandler(l *WebSocketListener) http.HandlerFunc { return l.handler }
