//go:build verif

package face

// VerifC16TakeSent removes and returns the frames the internal component has queued on an
// InternalTransport that is not attached to a forwarder (C16 harness: commands of the readvertiser).
func VerifC16TakeSent(t *InternalTransport) [][]byte {
	var out [][]byte
	for {
		select {
		case f := <-t.sendQueue:
			out = append(out, f)
		default:
			return out
		}
	}
}
