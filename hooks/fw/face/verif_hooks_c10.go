//go:build verif

package face

import (
	"strconv"

	defn "github.com/named-data/ndnd/fw/defn"
	"github.com/named-data/ndnd/fw/dispatch"
)

// VerifTransport is an in-memory transport for the verification harness (build tag verif only):
// it records every frame handed to sendFrame and reports a settable send-queue size.
type VerifTransport struct {
	transportBase
	Frames    [][]byte
	QueueSize uint64
}

// VerifNewTransport makes an in-memory transport with the given MTU and scope.
func VerifNewTransport(mtu int, scope defn.Scope) *VerifTransport {
	t := &VerifTransport{}
	t.makeTransportBase(defn.MakeNullFaceURI(), defn.MakeNullFaceURI(), PersistencyPermanent, scope, defn.PointToPoint, mtu)
	t.running.Store(true)
	return t
}

func (t *VerifTransport) String() string {
	return "VerifTransport, FaceID=" + strconv.FormatUint(t.faceID, 10)
}

func (t *VerifTransport) SetPersistency(persistency Persistency) bool {
	t.persistency = persistency
	return true
}

func (t *VerifTransport) GetSendQueueSize() uint64 { return t.QueueSize }

func (t *VerifTransport) sendFrame(frame []byte) {
	t.nOutBytes += uint64(len(frame))
	t.Frames = append(t.Frames, append([]byte(nil), frame...))
}

func (t *VerifTransport) runReceive() {}

func (t *VerifTransport) Close() { t.running.Store(false) }

// VerifSendPacket runs the link service's send path synchronously (what runSend does per packet).
func VerifSendPacket(l *NDNLPLinkService, out dispatch.OutPkt) { sendPacket(l, out) }

// VerifHandleIncomingFrame hands one received frame to the link service (what transports do).
func VerifHandleIncomingFrame(l *NDNLPLinkService, frame []byte) { l.handleIncomingFrame(frame) }

// VerifSetNextSequence presets the fragment sequence counter.
func VerifSetNextSequence(l *NDNLPLinkService, seq uint64) { l.nextSequence = seq }

// VerifNextSequence reads the fragment sequence counter.
func VerifNextSequence(l *NDNLPLinkService) uint64 { return l.nextSequence }

// VerifPartialMessages is the number of incompletely received messages held for reassembly.
func VerifPartialMessages(l *NDNLPLinkService) int { return len(l.partialMessageStore) }

// VerifSetCongestionMarking switches the package-level congestion marking setting.
func VerifSetCongestionMarking(on bool) { congestionMarking = on }

// VerifNewInternalTransport makes the real InternalTransport (the management face's transport) with
// the given MTU and receive-queue capacity; it is not attached to a forwarder and nothing receives
// from it, so frames handed to sendFrame stay queued until VerifInternalDrain takes them.
func VerifNewInternalTransport(mtu int, queueCap int) *InternalTransport {
	t := MakeInternalTransport()
	t.mtu = mtu
	t.recvQueue = make(chan []byte, queueCap)
	return t
}

// VerifInternalDrain removes and returns the frames queued towards the internal component.
func VerifInternalDrain(t *InternalTransport) [][]byte {
	var out [][]byte
	for {
		select {
		case f := <-t.recvQueue:
			out = append(out, f)
		default:
			return out
		}
	}
}
