//go:build verif

package face

import "io"

// Test-only access for the C04 verification harness (receive path robustness).
// Compiled only with -tags verif; independent of any other verif_hooks_*.go file.

// VerifC04HandleFrame feeds one link-layer frame to the link service exactly as a transport does.
func VerifC04HandleFrame(l *NDNLPLinkService, frame []byte) {
	l.handleIncomingFrame(frame)
}

// VerifC04StoreStats reports the partial message store: number of base sequences, total number
// of fragment slots allocated for them, total bytes of the fragments held.
func VerifC04StoreStats(l *NDNLPLinkService) (entries int, slots int, bytes int) {
	for _, frags := range l.partialMessageStore {
		entries++
		slots += len(frags)
		for _, f := range frags {
			bytes += len(f)
		}
	}
	return
}

// VerifC04ReadTlvStream runs the stream framing loop of the stream transports over r.
func VerifC04ReadTlvStream(r io.Reader, onFrame func([]byte)) error {
	return readTlvStream(r, onFrame, nil)
}
