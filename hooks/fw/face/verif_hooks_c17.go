//go:build verif

// Verification hook (build tag `verif` only): an in-memory transport whose scope, URIs and MTU
// are chosen by the harness. The `transport` interface has unexported methods, so a harness
// outside this package cannot provide one. Used by /verif (property C17) to stand up a
// non-local face without sockets. With the tag off this file does not exist for the compiler.

package face

import (
	"strconv"
	"sync"

	defn "github.com/named-data/ndnd/fw/defn"
)

// VerifC17Transport records the frames the link service sends and lets the harness deliver
// incoming frames synchronously.
type VerifC17Transport struct {
	transportBase
	mu     sync.Mutex
	frames [][]byte
	closed chan struct{}
}

// MakeVerifC17Transport makes an in-memory transport. remote/local must be canonical face URIs.
func MakeVerifC17Transport(remote *defn.URI, local *defn.URI, scope defn.Scope, mtu int) *VerifC17Transport {
	t := new(VerifC17Transport)
	t.makeTransportBase(remote, local, PersistencyPersistent, scope, defn.PointToPoint, mtu)
	t.closed = make(chan struct{})
	t.running.Store(true)
	return t
}

// MakeVerifC17Face wraps the transport into the real NDNLPv2 link service (not yet running).
func MakeVerifC17Face(t *VerifC17Transport, options NDNLPLinkServiceOptions) *NDNLPLinkService {
	return MakeNDNLPLinkService(t, options)
}

func (t *VerifC17Transport) String() string {
	return "VerifC17Transport, FaceID=" + strconv.FormatUint(t.faceID, 10)
}

// SetPersistency accepts every persistency (like the unicast UDP transport).
func (t *VerifC17Transport) SetPersistency(persistency Persistency) bool {
	t.persistency = persistency
	return true
}

// GetSendQueueSize returns 0.
func (t *VerifC17Transport) GetSendQueueSize() uint64 { return 0 }

// sendFrame mirrors the datagram transports: frames above the MTU are dropped.
func (t *VerifC17Transport) sendFrame(frame []byte) {
	if !t.running.Load() {
		return
	}
	if len(frame) > t.MTU() {
		return
	}
	t.nOutBytes += uint64(len(frame))
	c := make([]byte, len(frame))
	copy(c, frame)
	t.mu.Lock()
	t.frames = append(t.frames, c)
	t.mu.Unlock()
}

func (t *VerifC17Transport) runReceive() {
	<-t.closed
}

// Close stops the transport (runReceive returns, the link service unregisters the face).
func (t *VerifC17Transport) Close() {
	if t.running.Swap(false) {
		close(t.closed)
	}
}

// Inject delivers one incoming frame to the link service, synchronously.
func (t *VerifC17Transport) Inject(frame []byte) {
	t.nInBytes += uint64(len(frame))
	t.linkService.handleIncomingFrame(frame)
}

// TakeFrames returns and clears the frames sent so far.
func (t *VerifC17Transport) TakeFrames() [][]byte {
	t.mu.Lock()
	defer t.mu.Unlock()
	f := t.frames
	t.frames = nil
	return f
}
