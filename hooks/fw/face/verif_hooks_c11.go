//go:build verif

package face

import "io"

// VerifReadTlvStream exposes readTlvStream to the verification harness (build tag verif only).
func VerifReadTlvStream(reader io.Reader, onFrame func([]byte), ignoreError func(error) bool) error {
	return readTlvStream(reader, onFrame, ignoreError)
}
