//go:build verif

package face

import (
	"errors"
	"io"
	"net"

	defn "github.com/named-data/ndnd/fw/defn"
)

// VerifReadTlvStream exposes readTlvStream to the verification harness (build tag verif only).
func VerifReadTlvStream(reader io.Reader, onFrame func([]byte), ignoreError func(error) bool) error {
	return readTlvStream(reader, onFrame, ignoreError)
}

// verifFrameSink is a link service that only reports the frames its transport hands up.
type verifFrameSink struct {
	linkServiceBase
	onFrame func([]byte)
}

func (s *verifFrameSink) String() string                   { return "VerifFrameSink" }
func (s *verifFrameSink) Run(initial []byte)               {}
func (s *verifFrameSink) handleIncomingFrame(frame []byte) { s.onFrame(frame) }

// VerifStreamReceiver builds the REAL stream transport of the given kind ("tcp": UnicastTCPTransport
// accepted on conn, "unix": UnixStreamTransport on conn) with a frame sink as its link service,
// applies SetMTU(mtu) the way management faces/create|update does, and returns the transport's own
// receive loop (runReceive) for the harness to run; onFrame sees what reaches the link service.
func VerifStreamReceiver(kind string, conn net.Conn, mtu int, onFrame func([]byte)) (func(), error) {
	recv, _, _, err := VerifStreamTransport(kind, conn, mtu, onFrame)
	return recv, err
}

// VerifStreamTransport is VerifStreamReceiver that also returns the transport's own sendFrame (what
// the link service calls for every outgoing frame) and Close, so that blocks can be SENT through
// the real transport and read back by a second real transport at the other end of the connection.
func VerifStreamTransport(kind string, conn net.Conn, mtu int, onFrame func([]byte)) (recv func(), send func([]byte), closeT func(), err error) {
	var t transport
	switch kind {
	case "tcp":
		tt, err := AcceptUnicastTCPTransport(conn, defn.MakeTCPFaceURI(4, "127.0.0.1", 6363), PersistencyOnDemand)
		if err != nil {
			return nil, nil, nil, err
		}
		t = tt
	case "unix":
		local := defn.MakeUnixFaceURI("/run/verif.sock")
		remote := defn.MakeFDFaceURI(3)
		tt, err := MakeUnixStreamTransport(remote, local, conn)
		if err != nil {
			return nil, nil, nil, err
		}
		t = tt
	default:
		return nil, nil, nil, errors.New("unknown stream transport kind")
	}
	s := &verifFrameSink{onFrame: onFrame}
	s.makeLinkServiceBase()
	s.transport = t
	t.setLinkService(s)
	s.SetMTU(mtu)
	return t.runReceive, t.sendFrame, t.Close, nil
}

// VerifUDPTransport builds the REAL UnicastUDPTransport from 127.0.0.1:localPort to
// 127.0.0.1:remotePort with a frame sink as its link service and SetMTU(mtu) applied, and returns
// its receive loop, its sendFrame and its Close (see VerifStreamTransport).
func VerifUDPTransport(localPort, remotePort uint16, mtu int, onFrame func([]byte)) (recv func(), send func([]byte), closeT func(), err error) {
	t, err := MakeUnicastUDPTransport(defn.MakeUDPFaceURI(4, "127.0.0.1", remotePort),
		defn.MakeUDPFaceURI(4, "127.0.0.1", localPort), PersistencyPersistent)
	if err != nil {
		return nil, nil, nil, err
	}
	s := &verifFrameSink{onFrame: onFrame}
	s.makeLinkServiceBase()
	s.transport = t
	t.setLinkService(s)
	s.SetMTU(mtu)
	return t.runReceive, t.sendFrame, t.Close, nil
}

// VerifOutgoingTCPTransport builds the REAL outgoing UnicastTCPTransport towards 127.0.0.1:port with
// the given persistency (a permanent face reconnects when its connection fails), a frame sink as its
// link service and SetMTU(mtu) applied, and returns its receive loop (which dials, and re-dials) and
// its Close.
func VerifOutgoingTCPTransport(port uint16, persistency Persistency, mtu int, onFrame func([]byte)) (recv func(), closeT func(), err error) {
	t, err := MakeUnicastTCPTransport(defn.MakeTCPFaceURI(4, "127.0.0.1", port), nil, persistency)
	if err != nil {
		return nil, nil, err
	}
	s := &verifFrameSink{onFrame: onFrame}
	s.makeLinkServiceBase()
	s.transport = t
	t.setLinkService(s)
	s.SetMTU(mtu)
	return t.runReceive, t.Close, nil
}

// VerifOutgoingTCPTransportSend is VerifOutgoingTCPTransport that also returns the transport's sendFrame.
func VerifOutgoingTCPTransportSend(port uint16, persistency Persistency, mtu int, onFrame func([]byte)) (recv func(), send func([]byte), closeT func(), err error) {
	t, err := MakeUnicastTCPTransport(defn.MakeTCPFaceURI(4, "127.0.0.1", port), nil, persistency)
	if err != nil {
		return nil, nil, nil, err
	}
	s := &verifFrameSink{onFrame: onFrame}
	s.makeLinkServiceBase()
	s.transport = t
	t.setLinkService(s)
	s.SetMTU(mtu)
	return t.runReceive, t.sendFrame, t.Close, nil
}

// VerifFaceSendAndClose returns, for a face of the face table (e.g. one a listener accepted), the sendFrame of
// its transport (what the link service's send loop calls per frame) and the face's Close (what faces/destroy,
// the expiration handler and shutdown call).
func VerifFaceSendAndClose(id uint64) (send func([]byte), closeF func(), ok bool) {
	ls := FaceTable.Get(id)
	if ls == nil {
		return nil, nil, false
	}
	nl, isNdnlp := ls.(*NDNLPLinkService)
	if !isNdnlp || nl.transport == nil {
		return nil, nil, false
	}
	return nl.transport.sendFrame, ls.Close, true
}
