//go:build verif

// Test-only access for the /verif check C08 (white-box dump of the PIT expiry queue).
// Add-only: nothing here is compiled without the build tag `verif`.

package priority_queue

// VerifC08Priority returns the priority the item currently has in its queue.
func (it *Item[V, P]) VerifC08Priority() P { return it.priority }

// VerifC08Index returns the heap index of the item (-1 once it was popped).
func (it *Item[V, P]) VerifC08Index() int { return it.index }
