//go:build verif

package face

import "net"

// VerifNewStreamFaceOnConn builds a running StreamFace around an existing connection
// (verification harness only; Open() insists on dialing).
func VerifNewStreamFaceOnConn(conn net.Conn, local bool) *StreamFace {
	f := NewStreamFace("verif", "verif", local)
	f.conn = conn
	f.running.Store(true)
	return f
}
